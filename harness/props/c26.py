"""C26 — idle release and resume never lose an event or double-run a workflow."""
from __future__ import annotations

from ..runner import Env, Outcome, Violation
from ..server import idle_check as IC
from ..server import lifecycle_props as LP

THEOREMS = ["C26_source_shape", "C26_single_loop", "C26_tick_accounting", "C26_no_lost_send", "C26_released_only_when_quiet", "C26_no_lost_send_atomic_store",
            "C26_refuted_premature_idle", "C26_refuted_premature_idle_lost", "C26_refuted_send_window", "C26_refuted",
            "C26_idleSound_is_C03", "C26_lifecycle_constants", "C26_cas_unique_owner", "C26_crash_timeout",
            "C26_dbos_check_then_send_window"]
LEAN_TARGETS = ["WfProps.C26"]
EXPLANATION = (
    "Lean (model M7, WfModel/Lifecycle.lean; schedules = arbitrary lists of the code's await-free sections, any number of senders / release "
    "tasks / releasers / resumers): for every schedule — live loops = started - aborted <= 1, active set = runtime registry, no failing reload or "
    "delivery (C26_single_loop); every tick is persisted, in the live loop's memory, or counted lost — exactly one of them (C26_tick_accounting); "
    "CAS wins of the lifecycle row strictly alternate release / activate, a losing CAS changes nothing, the releasing row has exactly one holder "
    "(C26_cas_unique_owner); takeovers only later than CRASH_TIMEOUT_SECONDS and, if live releasers are prompt, only of crashed releasers "
    "(C26_crash_timeout). Under the schedule hypotheses IdleSound (= C03's statement, refuted there) and WindowFree: nothing lost, released only "
    "when quiet (C26_no_lost_send, C26_released_only_when_quiet). Both hypotheses are necessary: C26_refuted_premature_idle (F14) and "
    "C26_refuted_send_window are machine-checked witnesses that replay on the real server stack (known findings). Tie: every action the real "
    "IdleReleaseDecorator stack performs (observed through pass-through wrappers under the virtual-time loop, with scheduler-controlled "
    "suspension of lock holders after store calls) is fed to the compiled model and the complete observable state is compared after each "
    "action; the real SqliteRunLifecycleLock is compared with the row model on random concurrent CAS streams; the real "
    "DBOSIdleReleaseDecorator's release/resume cycle runs over a stand-in inner runtime. Constants, SQL and control shapes are re-extracted "
    "from the sources on every run (GenLifecycle). Search: monitors on the observation log only (single loop, lock sections, busy releases "
    "classified by the truthfulness of the last idle announcement, every accepted send processed, no step twice)."
)
LEVEL_TEXT = ("proof (Lean 4) over the lifecycle model M7 — in-process IdleReleaseDecorator and the DBOS lifecycle row/protocol — "
              "+ per-action correspondence with the real in-process server stack and the real SqliteRunLifecycleLock + monitors; "
              "PARTIAL for the DBOS half: dbos/asyncpg/sqlalchemy are absent (DBOSIdleReleaseDecorator runs over a stand-in inner runtime, "
              "the PostgreSQL lock is extracted, not run)")
ASSUMPTIONS = LP.COMMON_ASSUMPTIONS + [
    "C26_dbos_check_then_send_window is a model-only witness (a message sent to a workflow that has exited is assumed dropped when _do_resume purges its DBOS state); not claimed as a finding",
]
TRUSTED_EXTRA = LP.TRUSTED_EXTRA

WITNESSES = [
    ("premature_idle(F14)", IC.WITNESS_PREMATURE_IDLE, "C26/released_while_busy:premature_idle"),
    ("send_window", IC.WITNESS_SEND_WINDOW, "C26/released_while_busy:send_window"),
]


def run(env: Env) -> Outcome:
    out = Outcome()
    out.rule = ("generated idle workflows (1-5 external events + optional final, durations and send times on a grid around idle_timeout, 1-2 workers, "
                "memory/sqlite store, 1/3 with scheduler-controlled store suspension, 1/4 with work longer than idle_timeout and retries); "
                "non-trivial = at least one release and one reload; distinct by (case, schedule)")
    LP.run_malformed(out)
    LP.run_inprocess(env, out, "C26", env.budget(24, 2400), WITNESSES)
    LP.run_row_corr(env, out, env.budget(300, 40000))
    o = LP.run_dbos_standin(out, create_row=True)
    tl = {t["tag"]: t for t in o["timeline"]}
    if not (tl.get("after_idle", {}).get("row", "").startswith("row=released") and tl.get("after_send_99", {}).get("result") == [1, 99]
            and o.get("idle_release_ticks") == 1):
        out.violations.append(Violation("C26/dbos_standin_cycle", f"with the lifecycle row present the stand-in release/resume cycle did not complete: {o['timeline']}",
                                        {"kind": "dbos_standin", "create_row": True}))
    o0 = LP.run_dbos_standin(out, create_row=False)
    begins = [c for c in o0["lock_calls"] if c[0] == "begin_release"]
    if o0.get("idle_release_ticks", 0) > 0 and not any(c[1] == "True" for c in begins):
        out.violations.append(Violation("C26/dbos_release_without_cas",
                                        f"TickIdleRelease was sent although no begin_release won the CAS: lock calls {o0['lock_calls']}",
                                        {"kind": "dbos_standin", "create_row": False}))
    # DBOS half under latency: a lifecycle lock whose calls really suspend, sends placed on the instants of a release / a resume
    LP.run_dbos_gated(env, out, "C26", env.budget(40, 1500))
    return out
