import WfModel.Context
import WfProofs.EngineIds
/-!
Lemmas about `collectEvents` (the pure part of `ctx.collect_events`) and about how the
reducer applies its results (`AddCollectedEvent` / `DeleteCollectedEvent`).
-/
set_option linter.unusedVariables false
namespace Engine

theorem countTy_eq_count (t : Nat) (l : List Nat) : countTy t l = l.count t := by
  induction l with
  | nil => rfl
  | cons a l ih =>
    unfold countTy at *
    by_cases h : a = t
    · subst h; simp [ih]
    · have h' : ¬ (a == t) = true := by simpa using h
      simp [List.filter_cons, h', ih, List.count_cons, h]

/-- buffer invariant: it never holds more events of a type than are expected -/
def BufOK (expected : List Nat) (collected : List Ev) : Prop :=
  ∀ t, (collected.map (·.ty)).count t ≤ expected.count t

theorem remainingOf_eq (expected : List Nat) (collected : List Ev) (t : Nat) :
    remainingOf expected collected t = expected.count t - (collected.map (·.ty)).count t := by
  simp [remainingOf, countTy_eq_count]

theorem onlyMissing_iff (expected : List Nat) (collected : List Ev) (ty : Nat) :
    onlyMissing expected collected ty = true ↔
      (expected.count ty - (collected.map (·.ty)).count ty = 1 ∧
        ∀ t ∈ expected, t ≠ ty → expected.count t - (collected.map (·.ty)).count t = 0) := by
  simp only [onlyMissing, Bool.and_eq_true, beq_iff_eq, List.all_eq_true, Bool.or_eq_true,
    remainingOf_eq]
  constructor
  · rintro ⟨h1, h2⟩
    refine ⟨h1, fun t ht hne => ?_⟩
    rcases h2 t ht with h | h
    · exact absurd h hne
    · exact h
  · rintro ⟨h1, h2⟩
    refine ⟨h1, fun t ht => ?_⟩
    by_cases hne : t = ty
    · exact Or.inl hne
    · exact Or.inr (h2 t ht hne)

/-- with the buffer invariant, "exactly `ty` is missing" says the buffer plus the event has
exactly the expected multiset of types -/
theorem count_snoc (collected : List Ev) (ev : Ev) (t : Nat) :
    ((collected ++ [ev]).map (·.ty)).count t =
      (collected.map (·.ty)).count t + (if ev.ty = t then 1 else 0) := by
  simp only [List.map_append, List.map_cons, List.map_nil, List.count_append, List.count_cons,
    List.count_nil, beq_iff_eq]
  omega

theorem onlyMissing_iff_counts (expected : List Nat) (collected : List Ev) (ev : Ev)
    (hb : BufOK expected collected) :
    onlyMissing expected collected ev.ty = true ↔
      ∀ t, ((collected ++ [ev]).map (·.ty)).count t = expected.count t := by
  rw [onlyMissing_iff]
  constructor
  · rintro ⟨h1, h2⟩ t
    have hbt := hb t
    rw [count_snoc]
    by_cases hty : ev.ty = t
    · subst hty; rw [if_pos rfl]; omega
    · rw [if_neg hty]
      by_cases hmem : t ∈ expected
      · have := h2 t hmem (fun h => hty h.symm); omega
      · have : expected.count t = 0 := List.count_eq_zero_of_not_mem hmem
        omega
  · intro h
    have hty := h ev.ty
    rw [count_snoc, if_pos rfl] at hty
    refine ⟨by omega, fun t _ hne => ?_⟩
    have ht := h t
    rw [count_snoc, if_neg (fun h => hne h.symm)] at ht
    omega

/-! ### `takeInOrder` -/

theorem count_map_erase {pool : List Ev} {e : Ev} (he : e ∈ pool) (t : Nat) :
    (pool.map (·.ty)).count t = ((pool.erase e).map (·.ty)).count t + (if e.ty = t then 1 else 0) := by
  have hp : (pool.map (·.ty)).Perm ((e :: pool.erase e).map (·.ty)) :=
    (List.perm_cons_erase he).map _
  rw [hp.count_eq]
  simp only [List.map_cons, List.count_cons, beq_iff_eq]

theorem exists_of_count_pos {pool : List Ev} {t : Nat} (h : 0 < (pool.map (·.ty)).count t) :
    ∃ e, pool.find? (fun e => e.ty == t) = some e ∧ e ∈ pool ∧ e.ty = t := by
  have hm : t ∈ pool.map (·.ty) := List.count_pos_iff.mp h
  obtain ⟨e0, he0, hty0⟩ := List.mem_map.mp hm
  cases hf : pool.find? (fun e => e.ty == t) with
  | none =>
    have := List.find?_eq_none.mp hf e0 he0
    simp [hty0] at this
  | some e =>
    refine ⟨e, rfl, List.mem_of_find?_eq_some hf, ?_⟩
    have := List.find?_some hf
    simpa using this

/-- `by_type[e_type].pop(0)` never fails and the result is ordered as `expected` -/
theorem takeInOrder_types : ∀ (expected : List Nat) (pool : List Ev),
    (∀ t, expected.count t ≤ (pool.map (·.ty)).count t) →
    (takeInOrder expected pool).map (·.ty) = expected
  | [], pool, _ => by simp [takeInOrder]
  | t :: ts, pool, h => by
    have hpos : 0 < (pool.map (·.ty)).count t := by
      have := h t; simp at this; omega
    obtain ⟨e, hf, hmem, hty⟩ := exists_of_count_pos hpos
    simp only [takeInOrder, hf, List.map_cons, hty]
    congr 1
    apply takeInOrder_types ts (pool.erase e)
    intro t'
    have h1 := h t'
    have h2 := count_map_erase hmem t'
    simp only [List.count_cons, beq_iff_eq] at h1
    rw [hty] at h2
    omega

theorem takeInOrder_perm : ∀ (expected : List Nat) (pool : List Ev),
    (∀ t, (pool.map (·.ty)).count t = expected.count t) →
    (takeInOrder expected pool).Perm pool
  | [], pool, h => by
    cases pool with
    | nil => simp [takeInOrder]
    | cons e es => have := h e.ty; simp at this
  | t :: ts, pool, h => by
    have hpos : 0 < (pool.map (·.ty)).count t := by
      have := h t; simp at this; omega
    obtain ⟨e, hf, hmem, hty⟩ := exists_of_count_pos hpos
    simp only [takeInOrder, hf]
    have ih := takeInOrder_perm ts (pool.erase e) (by
      intro t'
      have h1 := h t'
      have h2 := count_map_erase hmem t'
      simp only [List.count_cons, beq_iff_eq] at h1
      rw [hty] at h2
      omega)
    exact (List.Perm.cons e ih).trans (List.perm_cons_erase hmem).symm

theorem takeInOrder_subset : ∀ (expected : List Nat) (pool : List Ev) (x : Ev),
    x ∈ takeInOrder expected pool → x ∈ pool
  | [], pool, x, h => by simp [takeInOrder] at h
  | t :: ts, pool, x, h => by
    unfold takeInOrder at h
    split at h
    · rename_i e hf
      rcases List.mem_cons.mp h with rfl | h'
      · exact List.mem_of_find?_eq_some hf
      · exact List.mem_of_mem_erase (takeInOrder_subset ts _ x h')
    · exact takeInOrder_subset ts pool x h

/-! ### the reducer side: `AddCollectedEvent` / `DeleteCollectedEvent` -/

theorem Collected.get_touch (c : Collected) (b : Nat) : (c.touch b).get b = c.get b := by
  unfold Collected.touch
  split
  · rfl
  · rename_i h
    unfold Collected.get
    have hn : c.find? (fun p => p.1 == b) = none := by
      rw [List.find?_eq_none]
      intro p hp
      simp only [Collected.has, List.any_eq_true, not_exists, not_and] at h
      exact h p hp
    simp [List.find?_append, hn]

theorem Collected.get_touch_ne (c : Collected) (b b' : Nat) (h : b' ≠ b) : (c.touch b).get b' = c.get b' := by
  unfold Collected.touch
  by_cases hh : c.has b = true
  · simp only [hh, if_true]
  · simp only [hh, Bool.false_eq_true, if_false]
    unfold Collected.get
    have h2 : (b == b') = false := by simpa using fun h' : b = b' => h h'.symm
    rw [List.find?_append]
    cases hf : c.find? (fun p => p.1 == b') with
    | some v => simp
    | none => simp [List.find?_cons, h2]

theorem Collected.has_touch (c : Collected) (b : Nat) : (c.touch b).has b = true := by
  unfold Collected.touch
  split
  · assumption
  · simp [Collected.has]

theorem find?_map_append (c : List (Nat × List Ev)) (b : Nat) (e : Ev) :
    (c.map (fun p => if p.1 == b then (b, p.2 ++ [e]) else p)).find? (fun p => p.1 == b) =
      (c.find? (fun p => p.1 == b)).map (fun p => (b, p.2 ++ [e])) := by
  induction c with
  | nil => rfl
  | cons p ps ih =>
    by_cases hp : p.1 = b
    · simp [List.find?_cons, hp]
    · simp only [List.map_cons, List.find?_cons]
      have h1 : (p.1 == b) = false := by simpa using hp
      simp only [h1, Bool.false_eq_true, if_false]
      exact ih

theorem Collected.get_append (c : Collected) (b : Nat) (e : Ev) :
    (c.append b e).get b = c.get b ++ [e] := by
  have hhas := Collected.has_touch c b
  have hget := Collected.get_touch c b
  unfold Collected.append Collected.get at *
  rw [find?_map_append]
  cases hf : (c.touch b).find? (fun p => p.1 == b) with
  | none =>
    simp only [Collected.has, List.any_eq_true] at hhas
    obtain ⟨p, hp, hpb⟩ := hhas
    have := List.find?_eq_none.mp hf p hp
    exact absurd hpb this
  | some p =>
    rw [hf] at hget
    simp only [Option.map_some]
    rw [← hget]

theorem find?_ne_map_append (l : List (Nat × List Ev)) (b b' : Nat) (e : Ev) (h : b' ≠ b) :
    (l.map (fun p => if p.1 == b then (b, p.2 ++ [e]) else p)).find? (fun p => p.1 == b') =
      l.find? (fun p => p.1 == b') := by
  induction l with
  | nil => rfl
  | cons p ps ih =>
    simp only [List.map_cons, List.find?_cons]
    by_cases hp : p.1 = b
    · have h1 : (p.1 == b) = true := by simpa using hp
      have h2 : (b == b') = false := by simpa using fun h' : b = b' => h h'.symm
      have h3 : (p.1 == b') = false := by rw [hp]; exact h2
      simp only [h1, if_true, h2, h3]
      exact ih
    · have h1 : (p.1 == b) = false := by simpa using hp
      simp only [h1, Bool.false_eq_true, if_false]
      cases hq : (p.1 == b') with
      | true => rfl
      | false => exact ih

theorem Collected.get_append_ne (c : Collected) (b b' : Nat) (e : Ev) (h : b' ≠ b) :
    (c.append b e).get b' = c.get b' := by
  unfold Collected.append Collected.get
  rw [find?_ne_map_append _ _ _ _ h]
  unfold Collected.touch
  by_cases hh : c.has b = true
  · simp only [hh, if_true]
  · simp only [hh, Bool.false_eq_true, if_false]
    have h2 : (b == b') = false := by simpa using fun h' : b = b' => h h'.symm
    rw [List.find?_append]
    cases hf : c.find? (fun p => p.1 == b') with
    | some v => simp
    | none => simp [List.find?_cons, h2]

theorem Collected.get_pop (c : Collected) (b : Nat) : (c.pop b).get b = [] := by
  unfold Collected.pop Collected.get
  have : (c.filter (fun p => !(p.1 == b))).find? (fun p => p.1 == b) = none := by
    rw [List.find?_eq_none]
    intro p hp
    have := (List.mem_filter.mp hp).2
    simpa using this
  rw [this]

theorem find?_ne_filter (l : List (Nat × List Ev)) (b b' : Nat) (h : b' ≠ b) :
    (l.filter (fun p => !(p.1 == b))).find? (fun p => p.1 == b') = l.find? (fun p => p.1 == b') := by
  induction l with
  | nil => rfl
  | cons p ps ih =>
    by_cases hp : p.1 = b
    · have h1 : (p.1 == b) = true := by simpa using hp
      have h3 : (p.1 == b') = false := by rw [hp]; simpa using fun h' : b = b' => h h'.symm
      simp only [List.filter_cons, h1, Bool.not_true, Bool.false_eq_true, if_false, List.find?_cons, h3]
      exact ih
    · have h1 : (p.1 == b) = false := by simpa using hp
      simp only [List.filter_cons, h1, Bool.not_false, if_true, List.find?_cons]
      cases hq : (p.1 == b') with
      | true => rfl
      | false => exact ih

theorem Collected.get_pop_ne (c : Collected) (b b' : Nat) (h : b' ≠ b) : (c.pop b).get b' = c.get b' := by
  unfold Collected.pop Collected.get
  rw [find?_ne_filter _ _ _ h]

theorem drain_collected (step nw : Nat) (now : Int) :
    ∀ (fuel : Nat) (ss : StepState), (drain step nw now fuel ss).1.collected = ss.collected
  | 0, ss => by simp [drain]
  | fuel + 1, ss => by
    unfold drain
    split
    · rfl
    · split
      · rw [drain_collected step nw now fuel]
        exact (addOrEnqueue_collected _ _ _ _ _).1
      · rfl

end Engine
