import WfProofs.ResourceRun
/-!
The lock side of the bookkeeping (exclusive scopes): the lock is held by, or has been
handed to, a live invocation; the queue holds distinct invocations that wait.
-/
namespace Resource

/-- the phase of invocation `t` -/
def ph (s : St) (t : Nat) : Option Phase := (s.tasks[t]?).map (·.phase)

structure LockInv (s : St) : Prop where
  holder : ∀ t, s.lock = some t → ph s t = some .active ∨ ph s t = some .lockWait
  waitersOk : ∀ w, w ∈ s.waiters → ph s w = some .lockWait ∧ s.lock ≠ some w
  nodup : s.waiters.Nodup

theorem LockInv.congr {s s' : St} (h : LockInv s) (hl : s'.lock = s.lock) (hw : s'.waiters = s.waiters)
    (hp : ∀ j, ph s' j = ph s j) : LockInv s' := by
  refine ⟨?_, ?_, ?_⟩
  · intro t ht; rw [hp]; exact h.holder t (by rw [← hl]; exact ht)
  · intro w hw'; rw [hp, hl]; exact h.waitersOk w (by rw [← hw]; exact hw')
  · rw [hw]; exact h.nodup

theorem ph_set {s : St} {t j : Nat} {k0 k' : Task} (hk : s.tasks[t]? = some k0) (tasks' : List Task)
    (ht : tasks' = s.tasks.set t k') (s' : St) (hs : s'.tasks = tasks') :
    ph s' j = if j = t then some k'.phase else ph s j := by
  unfold ph
  rw [hs, ht, getElem?_set_tasks hk]
  by_cases hj : j = t <;> simp [hj]

/-- phases after `tasks.set t k'` -/
macro "ph_after_set" hk:ident t:ident : tactic =>
  `(tactic| (intro j; unfold ph; simp only [setTask]; rw [getElem?_set_tasks $hk]; by_cases hj : j = $t <;> simp [hj]))

/-- the task's phase does not change -/
theorem LockInv.same_phase {s s' : St} {t : Nat} {k0 k' : Task} (h : LockInv s) (hk : s.tasks[t]? = some k0)
    (hph : k'.phase = k0.phase) (ht : s'.tasks = s.tasks.set t k') (hl : s'.lock = s.lock)
    (hw : s'.waiters = s.waiters) : LockInv s' := by
  refine h.congr hl hw ?_
  intro j
  rw [ph_set hk _ rfl s' ht]
  by_cases hj : j = t
  · subst hj; simp [ph, hk, hph]
  · simp [hj]

theorem lock_deliver {s : St} {t : Nat} {k0 k : Task} {x v : Nat} (h : LockInv s) (hk : s.tasks[t]? = some k0)
    (hph : k.phase = k0.phase) : LockInv (deliver s t k x v) := by
  unfold deliver
  simp only
  split
  · exact h.same_phase (s' := setTask _ t _) hk (k' := { k with got := k.got ++ [v], todo := k.todo.tail }) hph rfl rfl rfl
  · rename_i f fs _
    exact h.same_phase (s' := setTask _ t _) hk
      (k' := { k with stack := { f with args := f.args ++ [v], rem := f.rem.tail } :: fs }) hph rfl rfl rfl

/-- the invocation inside the scope ends (returns, raises, is cancelled): the lock goes to
the first in the queue -/
theorem lock_finish {s : St} {t : Nat} {k0 k : Task} {o : Outcome} (c : Cfg) (hc : c.excl = true) (h : LockInv s)
    (hk : s.tasks[t]? = some k0) (ha : k0.phase = .active) (hown : k.owns = true) : LockInv (finish c s t k o) := by
  have hpt : ph s t = some .active := by simp [ph, hk, ha]
  have hnw : ∀ w, w ∈ s.waiters → w ≠ t := by
    intro w hw hwt; subst hwt
    have := (h.waitersOk w hw).1; rw [hpt] at this; cases this
  have hph : ∀ (s' : St) (k' : Task), s'.tasks = s.tasks.set t k' → k'.phase = .done o →
      ∀ j, ph s' j = if j = t then some (.done o) else ph s j := by
    intro s' k' hs' hk' j
    rw [ph_set (s := s) hk _ rfl s' hs', hk']
  unfold finish
  simp only [hown, hc, Bool.and_true, ↓reduceIte]
  cases hws : (exitScope s).waiters with
  | nil =>
    have hws' : s.waiters = [] := hws
    simp only
    refine ⟨?_, ?_, ?_⟩
    · intro j hj; simp at hj
    · intro w hw; simp at hw
    · simp
  | cons w ws =>
    have hws' : s.waiters = w :: ws := hws
    have hnd := h.nodup; rw [hws'] at hnd
    simp only
    refine ⟨?_, ?_, ?_⟩
    · intro j hj
      simp only [Option.some.injEq] at hj; subst hj
      right
      rw [hph _ _ rfl rfl, if_neg (hnw _ (by rw [hws']; simp))]
      exact (h.waitersOk _ (by rw [hws']; simp)).1
    · intro w' hw'
      simp only at hw'
      have hmem : w' ∈ s.waiters := by rw [hws']; exact List.mem_cons_of_mem _ hw'
      refine ⟨?_, ?_⟩
      · rw [hph _ _ rfl rfl, if_neg (hnw _ hmem)]; exact (h.waitersOk _ hmem).1
      · simp only [ne_eq, Option.some.injEq]
        intro heq; subst heq
        exact (List.nodup_cons.mp hnd).1 hw'
    · exact (List.nodup_cons.mp hnd).2

theorem lock_raise {s : St} {t : Nat} {k0 k : Task} {o : Outcome} (c : Cfg) (hc : c.excl = true) (h : LockInv s)
    (hk : s.tasks[t]? = some k0) (ha : k0.phase = .active) (hown : k.owns = true) : LockInv (raise c s t k o) := by
  unfold raise
  exact lock_finish c hc (h.congr (s' := { s with resolving := unwind s.resolving k.stack }) rfl rfl (fun _ => rfl))
    hk ha hown


theorem lock_enterGet {c : Cfg} {g : Graph} {s : St} {t : Nat} {k0 k : Task} {x : Nat} (hc : c.excl = true)
    (h : LockInv s) (hk : s.tasks[t]? = some k0) (ha : k0.phase = .active) (hph : k.phase = k0.phase)
    (hown : k.owns = true) : LockInv (enterGet c g s t k x) := by
  unfold enterGet
  split
  · exact lock_raise c hc h hk ha hown
  · split
    · exact lock_raise c hc h hk ha hown
    · split
      · exact lock_deliver h hk hph
      · split
        · exact lock_deliver h hk hph
        · refine h.same_phase (s' := setTask _ t _) hk ?_ rfl rfl rfl
          exact hph

theorem lock_complete {c : Cfg} {g : Graph} {s : St} {t : Nat} {k0 k : Task} {f : Frame} {fs : List Frame} {obj : Nat}
    (hc : c.excl = true) (h : LockInv s) (hk : s.tasks[t]? = some k0) (ha : k0.phase = .active)
    (hph : k.phase = k0.phase) (hown : k.owns = true) : LockInv (complete c g s t k f fs obj) := by
  unfold complete
  split
  · exact lock_raise c hc h hk ha hown
  · split
    · exact lock_raise c hc (h.congr (s' := { s with log := _ }) rfl rfl (fun _ => rfl)) hk ha hown
    · simp only
      exact lock_deliver (k := { k with stack := fs })
        (h.congr (s' := { s with resources := _, scache := _, resolving := _, log := _ }) rfl rfl (fun _ => rfl)) hk hph

theorem lock_callFactory {c : Cfg} {g : Graph} {s : St} {t : Nat} {k0 k : Task} {f : Frame} {fs : List Frame}
    (hc : c.excl = true) (h : LockInv s) (hk : s.tasks[t]? = some k0) (ha : k0.phase = .active)
    (hph : k.phase = k0.phase) (hown : k.owns = true) : LockInv (callFactory c g s t k f fs) := by
  unfold callFactory
  simp only
  split
  · exact lock_raise c hc h hk ha hown
  · split
    · refine h.same_phase (s' := { setTask _ t _ with cur := none }) hk ?_ rfl rfl rfl
      exact hph
    · exact lock_complete hc (h.congr (s' := { s with nextObj := _, log := _ }) rfl rfl (fun _ => rfl)) hk ha hph hown


/-- `t` neither holds the lock nor waits for it: its phase is immaterial -/
theorem LockInv.other {s s' : St} {t : Nat} {k0 k' : Task} (h : LockInv s) (hk : s.tasks[t]? = some k0)
    (hnh : s.lock ≠ some t) (hnw : t ∉ s.waiters) (ht : s'.tasks = s.tasks.set t k') (hl : s'.lock = s.lock)
    (hw : s'.waiters = s.waiters) : LockInv s' := by
  have hp : ∀ j, j ≠ t → ph s' j = ph s j := by intro j hj; rw [ph_set hk _ rfl s' ht, if_neg hj]
  refine ⟨?_, ?_, by rw [hw]; exact h.nodup⟩
  · intro j hj; rw [hl] at hj
    have hjt : j ≠ t := by intro e; subst e; exact hnh hj
    rw [hp j hjt]; exact h.holder j hj
  · intro w hw'; rw [hw] at hw'
    have hwt : w ≠ t := by intro e; subst e; exact hnw hw'
    rw [hp w hwt, hl]; exact h.waitersOk w hw'

theorem lock_start {c : Cfg} {s : St} {t : Nat} {k : Task} (hc : c.excl = true) (hk : s.tasks[t]? = some k)
    (hl : s.lock = some t) (hw : ∀ w, w ∈ s.waiters → ph s w = some .lockWait ∧ w ≠ t) (hnd : s.waiters.Nodup) :
    LockInv (start c s t k) := by
  unfold start
  simp only [hc, Bool.not_true, Bool.and_false, Bool.false_and, Bool.false_eq_true, ↓reduceIte]
  have hp : ∀ j, ph (setTask { s with depth := s.depth + 1 } t { k with phase := .active, owns := true }) j =
      if j = t then some .active else ph s j := by
    ph_after_set hk t
  refine ⟨?_, ?_, hnd⟩
  · intro j hj
    have hj' : s.lock = some j := hj
    rw [hl] at hj'; cases hj'
    left; rw [hp]; simp
  · intro w hw'
    obtain ⟨h1, h2⟩ := hw w hw'
    refine ⟨by rw [hp, if_neg h2]; exact h1, ?_⟩
    show s.lock ≠ some w
    rw [hl]; intro e; cases e; exact h2 rfl

/-- `t` ends outside a scope and the lock goes to the head of the queue -/
theorem lock_pass {s s' : St} {t : Nat} {k0 k' : Task} {o : Outcome} (h : LockInv s) (hk : s.tasks[t]? = some k0)
    (hnw : ∀ w, w ∈ s.waiters → w ≠ t) (ht : s'.tasks = s.tasks.set t k') (hk' : k'.phase = .done o)
    (hl : s'.lock = s.waiters.head?) (hw : s'.waiters = s.waiters.tail) : LockInv s' := by
  have hp : ∀ j, ph s' j = if j = t then some (.done o) else ph s j := by
    intro j; rw [ph_set hk _ rfl s' ht, hk']
  cases hws : s.waiters with
  | nil =>
    rw [hws] at hl hw
    refine ⟨?_, ?_, ?_⟩
    · intro j hj; rw [hl] at hj; simp at hj
    · intro w hw'; rw [hw] at hw'; simp at hw'
    · rw [hw]; simp
  | cons w ws =>
    have hnd := h.nodup
    rw [hws] at hl hw hnd
    simp only [List.head?_cons, List.tail_cons] at hl hw
    refine ⟨?_, ?_, ?_⟩
    · intro j hj
      rw [hl] at hj; simp only [Option.some.injEq] at hj; subst hj
      right
      rw [hp, if_neg (hnw _ (by rw [hws]; simp))]
      exact (h.waitersOk _ (by rw [hws]; simp)).1
    · intro w' hw'
      rw [hw] at hw'
      have hmem : w' ∈ s.waiters := by rw [hws]; exact List.mem_cons_of_mem _ hw'
      refine ⟨?_, ?_⟩
      · rw [hp, if_neg (hnw _ hmem)]; exact (h.waitersOk _ hmem).1
      · rw [hl]; simp only [ne_eq, Option.some.injEq]
        intro heq; subst heq
        exact (List.nodup_cons.mp hnd).1 hw'
    · rw [hw]; exact (List.nodup_cons.mp hnd).2

theorem lock_cancelWait {s : St} {t : Nat} {k : Task} (h : LockInv s) (hk : s.tasks[t]? = some k)
    (hph : k.phase = .lockWait) : LockInv (cancelWait s t k) := by
  have hpt : ph s t = some .lockWait := by simp [ph, hk, hph]
  unfold cancelWait
  simp only
  split
  · rename_i hl
    have hnw : t ∉ s.waiters := fun hm => (h.waitersOk t hm).2 hl
    rw [List.erase_of_not_mem hnw]
    have hnw' : ∀ w, w ∈ s.waiters → w ≠ t := fun w hw e => hnw (e ▸ hw)
    cases hws : s.waiters with
    | nil => exact lock_pass (o := .cancelled) h hk hnw' rfl rfl (by rw [hws]; rfl) (by rw [hws]; rfl)
    | cons w ws => exact lock_pass (o := .cancelled) h hk hnw' rfl rfl (by rw [hws]; rfl) (by rw [hws]; rfl)
  · rename_i hl
    have hp : ∀ j, ph ({ s with
        tasks := s.tasks.set t { k with phase := .done .cancelled, stack := [], todo := [] },
        log := .fin t .cancelled :: s.log, lock := s.lock, waiters := s.waiters.erase t, cur := none } : St) j =
        if j = t then some (.done .cancelled) else ph s j := by
      ph_after_set hk t
    refine ⟨?_, ?_, h.nodup.erase t⟩
    · intro j hj
      have hj' : s.lock = some j := hj
      have hjt : j ≠ t := by intro e; subst e; exact hl hj'
      rw [hp, if_neg hjt]; exact h.holder j hj'
    · intro w hw
      have hw' : w ∈ s.waiters.erase t := hw
      have hw2 := (List.Nodup.mem_erase_iff h.nodup).mp hw'
      refine ⟨?_, (h.waitersOk w hw2.2).2⟩
      rw [hp, if_neg hw2.1]; exact (h.waitersOk w hw2.2).1

theorem lock_tickTask {c : Cfg} {g : Graph} {s : St} {t : Nat} {k : Task} (hc : c.excl = true) (hI : Inv c g s)
    (h : LockInv s) (hk : s.tasks[t]? = some k) : LockInv (tickTask c g s t k) := by
  unfold tickTask
  split
  · rename_i hph
    have hpt : ph s t = some .fresh := by simp [ph, hk, hph]
    have hnh : s.lock ≠ some t := by
      intro hl; rcases h.holder t hl with h1 | h1 <;> (rw [hpt] at h1; cases h1)
    have hnw : ∀ w, w ∈ s.waiters → w ≠ t := by
      intro w hw e; subst e; have := (h.waitersOk w hw).1; rw [hpt] at this; cases this
    split
    · exact h.other (s' := { setTask s t _ with cur := none, log := _ }) hk hnh (fun hm => hnw t hm rfl) rfl rfl rfl
    · simp only [hc]
      split
      · rename_i hlock
        exact lock_start hc (s := { s with lock := some t }) hk rfl
          (fun w hw => ⟨(h.waitersOk w hw).1, hnw w hw⟩) h.nodup
      · have hp : ∀ j, ph ({ setTask s t { k with phase := .lockWait } with
            waiters := s.waiters ++ [t], cur := none } : St) j = if j = t then some .lockWait else ph s j := by
          ph_after_set hk t
        refine ⟨?_, ?_, ?_⟩
        · intro j hj
          have hj' : s.lock = some j := hj
          have hjt : j ≠ t := by intro e; subst e; exact hnh hj'
          rw [hp, if_neg hjt]; exact h.holder j hj'
        · intro w hw
          have hw' : w ∈ s.waiters ++ [t] := hw
          simp only [List.mem_append, List.mem_singleton] at hw'
          rcases hw' with hw' | hw'
          · exact ⟨by rw [hp, if_neg (hnw w hw')]; exact (h.waitersOk w hw').1, (h.waitersOk w hw').2⟩
          · subst hw'; exact ⟨by rw [hp]; simp, hnh⟩
        · show (s.waiters ++ [t]).Nodup
          refine List.nodup_append.mpr ⟨h.nodup, by simp, ?_⟩
          intro a ha b hb
          simp only [List.mem_singleton] at hb; subst hb; exact hnw a ha
  · rename_i hph
    split
    · rename_i hl
      exact lock_start hc hk hl
        (fun w hw => ⟨(h.waitersOk w hw).1, fun e => (h.waitersOk w hw).2 (by rw [hl, e])⟩) h.nodup
    · exact h.congr rfl rfl (fun _ => rfl)
  · exact h.congr rfl rfl (fun _ => rfl)
  · rename_i hph
    have hown := (hI.act t k hk hph).owns
    split
    · split
      · exact lock_finish c hc h hk hph hown
      · exact lock_enterGet hc h hk hph rfl hown
    · split
      · exact h.congr rfl rfl (fun _ => rfl)
      · split
        · exact lock_enterGet hc h hk hph rfl hown
        · exact lock_callFactory hc h hk hph rfl hown

theorem lock_step {c : Cfg} {g : Graph} {s : St} (a : Act) (hc : c.excl = true) (hI : Inv c g s) (h : LockInv s) :
    LockInv (stepD c g s a) := by
  unfold stepD step
  cases a with
  | spawn reqs bare =>
    simp only
    split
    · exact h
    · simp only [Option.getD_some]
      have hp : ∀ j p, ph s j = some p →
          ph ({ s with tasks := s.tasks ++ [newTask reqs bare], cur := some s.tasks.length } : St) j = some p := by
        intro j p hj
        unfold ph at hj ⊢
        have hlt : j < s.tasks.length := by
          cases hq : s.tasks[j]? with
          | none => simp [hq] at hj
          | some q => exact (List.getElem?_eq_some_iff.mp hq).1
        simp only
        rw [List.getElem?_append_left hlt]; exact hj
      refine ⟨?_, ?_, h.nodup⟩
      · intro j hj
        rcases h.holder j hj with h1 | h1
        · left; exact hp _ _ h1
        · right; exact hp _ _ h1
      · intro w hw; exact ⟨hp _ _ (h.waitersOk w hw).1, (h.waitersOk w hw).2⟩
  | tick =>
    simp only
    split
    · exact h
    · split
      · exact h.congr rfl rfl (fun _ => rfl)
      · rename_i t _ k hk
        exact lock_tickTask hc hI h hk
  | resume t =>
    simp only
    split
    · exact h
    · split
      · exact h
      · rename_i k hk
        split
        · rename_i f fs hph hst
          split
          · simp only [Option.getD_some]
            have hown := (hI.act t k hk hph).owns
            exact lock_complete hc (h.congr (s' := { s with cur := some t }) rfl rfl (fun _ => rfl)) hk hph rfl hown
          · exact h
        · split
          · simp only [Option.getD_some]; exact h.congr rfl rfl (fun _ => rfl)
          · exact h
        · exact h
  | cancel t =>
    simp only
    split
    · exact h
    · split
      · exact h
      · rename_i k hk
        split
        · rename_i f fs hph hst
          split
          · simp only [Option.getD_some]
            exact lock_raise c hc h hk hph (hI.act t k hk hph).owns
          · exact h
        · rename_i hph
          simp only [Option.getD_some]
          exact lock_cancelWait h hk hph
        · exact h

theorem lock_foldl {c : Cfg} {g : Graph} (hc : c.excl = true) : ∀ (acts : List Act) (s : St), Inv c g s → LockInv s →
    LockInv (acts.foldl (stepD c g) s)
  | [], _, _, h => h
  | a :: as, s, hI, h => by
    simp only [List.foldl_cons]
    exact lock_foldl hc as _ (inv_step a hI (fun he => by rw [hc] at he; cases he)) (lock_step a hc hI h)

theorem lock_run (c : Cfg) (hc : c.excl = true) (g : Graph) (acts : List Act) : LockInv (run c g acts) :=
  lock_foldl hc acts _ (inv_init c g) ⟨(by intro t ht; cases ht), (by intro w hw; cases hw), List.nodup_nil⟩

/-- every invocation has ended: the lock is free and nobody is queued -/
theorem lock_free_of_all_done {s : St} (h : LockInv s)
    (hd : ∀ (t : Nat) (k : Task), s.tasks[t]? = some k → ∃ o, k.phase = .done o) : s.lock = none ∧ s.waiters = [] := by
  have hno : ∀ t, ph s t ≠ some .active ∧ ph s t ≠ some .lockWait := by
    intro t
    unfold ph
    cases hq : s.tasks[t]? with
    | none => simp
    | some k => obtain ⟨o, ho⟩ := hd t k hq; simp [ho]
  refine ⟨?_, ?_⟩
  · cases hl : s.lock with
    | none => rfl
    | some t => rcases h.holder t hl with h1 | h1
                · exact absurd h1 (hno t).1
                · exact absurd h1 (hno t).2
  · cases hw : s.waiters with
    | nil => rfl
    | cons w ws => exact absurd (h.waitersOk w (by rw [hw]; simp)).1 (hno w).2

end Resource
