"""C19 — state stores implement the same state semantics, with isolated snapshots."""
from __future__ import annotations

import copy
import json
import os
from typing import Any

from ..boot import VERIF
from ..runner import Divergence, Driver, Env, Outcome, Violation

THEOREMS = [
    "C19_source_shape",
    "C19_refines_dict_memory",
    "C19_refines_dict_sqlite",
    "C19_refines_dict",
    "C19_backends_agree",
    "C19_store_tracks_spec",
    "C19_snapshot",
    "C19_snapshot_until_written_back",
    "C19_set_then_get",
    "C19_set_creates_missing",
    "C19_digit_segment_is_key_at_root",
    "C19_merge_keeps_child_fields",
    "C19_clear_is_default",
    # every history (no guard on the bodies), interleavings of snapshot handling, invariants of all reachable states
    "C19_refines_dict_memory_every_history",
    "C19_live_dict_differs_only_on_raising_bodies",
    "C19_backends_agree_until_a_body_raises",
    "C19_snapshot_mutations_unobservable",
    "C19_reads_unobservable",
    "C19_write_back_installs_snapshot",
    "C19_type_never_changes",
    "C19_typed_fields_fixed",
    "C19_set_then_get_on_stores",
    "C19_set_leaves_other_keys",
]
EXPLANATION = (
    "One Lean model (WfModel/StateStore.lean) of JSON values, the path walkers (traverse_path_step/assign_path_step/"
    "get_by_path/set_by_path incl. int(segment) parsing, negative indices, string indexing, creation of missing "
    "intermediates, MAX_DEPTH, error classes), merge_state, DictState / typed inherited models, and three sequential machines "
    "over one op language: Spec (plain nested dict, structural recursion, transactional edit), Mem (InMemoryStateStore along "
    "the code's control flow) and Sql (SqliteStateStore: a row that may be missing, load/compute/save as the code issues them). "
    "Theorems: for every schema, state type and op list the outputs of Mem and of Sql equal those of Spec (simulation with the "
    "abstraction function Sql.abs, induction over op lists), hence agree; snapshot mutations never change the store component. "
    "Tie: MAX_DEPTH, locking/copy shape flags regenerated from source (C19_source_shape); one seeded op stream per case is "
    "executed on the real InMemoryStateStore and the real SqliteStateStore (database migrated and store created through "
    "SqliteWorkflowStore, per-call connections) and the canonicalised results are diffed line by line against the Mem, Sql and "
    "Spec drivers. Monitors (model-independent): backend agreement per op, agreement of results and of the full state after "
    "every op with an independent Python nested-dict reference, and snapshot isolation (store unchanged by top-level mutation "
    "of a get_state() result)."
)
LEVEL_TEXT = "proof (Lean 4) of the model + per-operation correspondence with both real stores + direct monitors"
ASSUMPTIONS = [
    "JSON domain: null/bool/int/str/list/dict with string keys; floats are opaque atoms identified by repr (finite only); "
    "json / pydantic / sqlite3 round-trip such values unchanged (exercised on every run, not proved)",
    "segment names are not attribute names of Python's list/str/int/float/bool/None, of pydantic.BaseModel or of DictState "
    "(getattr on such names returns bound methods, not JSON values), do not start with an underscore at the root (pydantic keeps "
    "`_x` as a plain instance attribute outside the model's fields: kept by the in-memory store, lost by a SQLite round trip), "
    "contain no non-ASCII digits or whitespace (int() accepts "
    "those), and dict values do not carry the JsonSerializer discriminator keys __is_pydantic/__is_component",
    "values written to annotated fields of typed models conform to the annotation (SQLite re-validates on every load: a "
    "non-conforming value is coerced or rejected there, kept as is in memory) — the harness models mix Any, int, str, list, dict",
    "set_state receives an instance of the store's own type, of one of its ancestors, a DictState or an unrelated model; an "
    "instance of a strict subclass (accepted by isinstance in merge_state although the docstring lists it under ValueError) "
    "changes the dynamic type of the state and clear() then differs between the stores — not modelled, recorded as a reading",
    "an edit_state body that raises: the in-memory store keeps what the body did before raising (it edits the live object), "
    "SQLite discards it; the property is silent, so Spec follows the transactional reading, Mem is modelled as it is, and the "
    "refinement/agreement theorems for memory carry the guard `bodies do not raise`",
    "get_state() is a shallow copy: nested containers of an in-memory snapshot stay shared with the store; the harness mutates "
    "only the top level of snapshots and writes back a value copy",
    "aliasing through arguments (the in-memory store keeps references to values/models passed to set/set_state) is avoided by "
    "the harness handing fresh copies; PostgreSQL / agent-data stores are not claimed",
]
TRUSTED_EXTRA = [
    "harness/ss_common.py (value encoding, real-store executor, Python reference PySpec, generators), harness/ss_models.py",
    "harness/gen/statestore.py: AST extraction of MAX_DEPTH and of the lock/copy/merge shape flags",
    "harness/sloop.py: every store call runs as a real task on a scripted virtual-time event loop (a running loop, "
    "current_task and timers exist for the code under test)",
]

MODEL = "statestore"
CORPUS = os.path.join(VERIF, "harness", "corpus", "c19_cases.json")


def _sig_class(kind: str) -> str:
    return "dict" if kind == "dict" else "typed"


def _digit_root(op: list) -> bool:
    if op[0] in ("get", "set") and op[1]:
        seg = op[1].split(".")[0]
        try:
            int(seg)
            return True
        except ValueError:
            return False
    if op[0] == "mutsnap":
        try:
            int(op[1])
            return True
        except ValueError:
            return False
    return False


class CaseResult:
    def __init__(self) -> None:
        self.mem: list[str] = []
        self.sql: list[str] = []
        self.viol: tuple[str, str] | None = None  # (signature, what)
        self.at: int = -1
        self.counts: dict[str, int] = {}


def run_real(S: Any, sqlenv: Any, case: dict, monitors: bool = True) -> CaseResult:
    """execute the case on both real stores; monitors stop at the first violation"""
    kind = case["kind"]
    res = CaseResult()
    mem = S.Real(S.make_mem(kind), kind)
    sql = S.Real(sqlenv.store(kind), kind)
    ref_sql = S.PySpec(kind)
    ref_mem = S.PySpec(kind, partial_on_raise=True)
    tainted = False
    cls = _sig_class(kind)
    for i, op in enumerate(case["ops"]):
        if op[0] == "raw":
            res.mem.append("bad-op")
            res.sql.append("bad-op")
            continue
        before = None
        if monitors and op[0] == "mutsnap":
            before = (mem.peek(), sql.peek())
        a = mem.do(op)
        b = sql.do(op)
        res.mem.append(a)
        res.sql.append(b)
        res.counts[op[0]] = res.counts.get(op[0], 0) + 1
        if a.startswith("err:") or b.startswith("err:"):
            res.counts["errors"] = res.counts.get("errors", 0) + 1
        if not monitors:
            continue
        ea = ref_mem.do(op)
        eb = ref_sql.do(op)
        digit = ":digit_root" if _digit_root(op) else ""
        if op[0] == "mutsnap" and before is not None:
            after = (mem.peek(), sql.peek())
            for name, x, y in (("mem", before[0], after[0]), ("sql", before[1], after[1])):
                if x != y:
                    res.viol = (f"C19/snapshot_leak:{name}:{cls}",
                                f"{name} store changed from {x[1]!r} to {y[1]!r} when the top level of a get_state() "
                                f"snapshot was mutated ({op!r}) without writing it back")
                    res.at = i
                    return res
        if not tainted and a != b:
            res.viol = (f"C19/backends_disagree:{op[0]}:{cls}{digit}",
                        f"op #{i} {op!r}: in-memory store answered {a!r}, SQLite store answered {b!r}")
            res.at = i
            return res
        for name, got, exp, real, ref in (("mem", a, ea, mem, ref_mem), ("sql", b, eb, sql, ref_sql)):
            if got != exp:
                res.viol = (f"C19/spec_mismatch:{name}:{op[0]}:{cls}{digit}",
                            f"op #{i} {op!r}: {name} store answered {got!r}, the nested-dict reference {exp!r}")
                res.at = i
                return res
            st = real.peek()
            if st[0] != kind or st[1] != ref.data:
                res.viol = (f"C19/spec_state_mismatch:{name}:{op[0]}:{cls}{digit}",
                            f"after op #{i} {op!r}: {name} store holds {st!r}, the nested-dict reference {ref.data!r}")
                res.at = i
                return res
        if ref_mem.data != ref_sql.data:
            tainted = True  # legitimately different after a body that raised (documented reading)
    return res


def shrink(S: Any, sqlenv: Any, case: dict, sig: str, budget: int = 120) -> dict:
    ops = list(case["ops"])
    # cut after the violating op first
    r = run_real(S, sqlenv, {"kind": case["kind"], "ops": ops})
    if r.viol and r.at >= 0:
        ops = ops[: r.at + 1]
    i = 0
    while i < len(ops) and budget > 0:
        cand = ops[:i] + ops[i + 1:]
        budget -= 1
        r = run_real(S, sqlenv, {"kind": case["kind"], "ops": cand})
        if r.viol and r.viol[0] == sig:
            ops = cand[: r.at + 1]
        else:
            i += 1
    return {"kind": case["kind"], "ops": ops}


def driver_lines(S: Any, case: dict) -> list[str]:
    sc = S.schema_enc()
    lines = []
    for be in ("mem", "sql", "spec"):
        lines.append(f"init|{be}|{case['kind']}|{sc}")
        lines += [S.op_line(op) for op in case["ops"]]
    return lines


def has_raise(case: dict) -> bool:
    """some edit body of the case may raise (syntactic over-approximation)"""
    fields = None
    for op in case["ops"]:
        if op[0] != "edit":
            continue
        for m in op[1]:
            if m[0] == "R":
                return True
            if case["kind"] != "dict":
                if m[0] == "D":
                    return True
                if fields is None:
                    from .. import ss_common as S

                    fields = {f for f, _ in S.fields_of(S.kind_level(case["kind"]))}
                if m[1] not in fields:
                    return True
    return False


def gen_case(S: Any, rng: Any, n_ops: int, allow_raise: bool) -> dict:
    kind = rng.choice(S.KINDS)
    ref = S.PySpec(kind)
    ops = []
    def put(op: list) -> None:
        ops.append(op)
        ref.do(op)

    def snap_of_empty() -> None:
        # a snapshot taken while the store holds nothing (fresh store / right after clear), mutated and then NOT
        # written back: the store must still be empty afterwards
        put(["getstate"])
        for _ in range(rng.randrange(1, 3)):
            put(S.gen_op_mutsnap(rng, kind))
        if rng.random() < 0.7:
            put(["get", S.gen_path(rng, ref.data, kind, False), S.NODEF])

    def write_into_defaults() -> None:
        # typed state right after clear(): write INTO a container-valued default (meta.k = v, tags.append(v)), clear again:
        # the second clear must give the type's defaults again, not what was written into the first cleared state
        fields = [f for f, _ in S.fields_of(S.kind_level(kind))]
        for _ in range(rng.randrange(1, 3)):
            r = rng.random()
            if "meta" in fields and r < 0.5:
                put(["set", "meta." + S.gen_key(rng), S.gen_value(rng, 1)])
            elif "tags" in fields and r < 0.8:
                put(["edit", [["A", "tags", S.gen_value(rng, 1)]]])
            elif "meta" in fields:
                put(["edit", [["K", "meta", {S.gen_key(rng): S.gen_value(rng, 1)}]]])
        put(["clear"])
        put(["getstate"])

    if rng.random() < 0.15:
        snap_of_empty()
    while len(ops) < n_ops:
        op = S.gen_op(rng, kind, ref.data, ref.held is not None, allow_raise)
        put(op)
        if op[0] == "clear" and rng.random() < 0.4:
            snap_of_empty()
        elif op[0] == "clear" and kind != "dict" and rng.random() < 0.6:
            write_into_defaults()
    return {"kind": kind, "ops": ops}


MALFORMED = [
    "", "get", "get|1,2", "set|x|n", "set|97|", "set|97|i", "setstate|sub:1|o0", "setstate|same|a0", "edit|o0",
    "edit|a1 a1 s90", "mutsnap|97", "init|mem|typed|a0", "crun|0", "cserial|", "get|97|q", "set|97|o1 s97 n", "clear|1",
]


def run(env: Env) -> Outcome:
    from .. import ss_common as S

    out = Outcome()
    out.rule = ("per op: driver(Mem) == real InMemoryStateStore, driver(Sql) == real SqliteStateStore, driver(Spec) == both "
                "(bodies that do not raise); monitors: backends agree, results and full state equal the Python nested-dict "
                "reference after every op, store unchanged by top-level mutation of a snapshot")
    sqlenv = S.SqlEnv()
    try:
        cases: list[tuple[str, dict]] = []
        if env.replay is not None:
            c = env.replay.get("payload", {}).get("case")
            if isinstance(c, dict) and "ops" in c:
                cases.append(("replay", c))
        try:
            corpus = json.load(open(CORPUS))["cases"]
        except OSError:
            corpus = []
            out.notes.append("corpus file missing: " + CORPUS)
        for c in corpus:
            cases.append(("corpus:" + c.get("name", "?"), {"kind": c["kind"], "ops": c["ops"]}))
        n_cases = env.budget(36, 400)
        n_ops = 30 if env.tier == "quick" else 45
        for i in range(n_cases):
            cases.append(("gen", gen_case(S, env.rng, n_ops, allow_raise=(i % 4 == 3))))
        # a malformed stream: both sides must answer bad-op and stay in step afterwards
        mal = {"kind": "dict", "ops": [["set", "a.b", 1]] + [["raw", l] for l in MALFORMED] + [["get", "a.b", S.NODEF]]}
        cases.append(("malformed", mal))

        # ---- real executions + monitors
        results: list[CaseResult] = []
        for tag, case in cases:
            r = run_real(S, sqlenv, case)
            results.append(r)
            out.evaluations += len(r.mem)
            out.traces_validated += 1
            for k, v in r.counts.items():
                out.count("op:" + k, v)
            out.count("kind:" + case["kind"])
            out.count("source:" + tag.split(":")[0])
            out.nontrivial((case["kind"], r.mem))
            if r.viol is not None:
                sig, what = r.viol
                small = shrink(S, sqlenv, case, sig)
                out.violations.append(Violation(sig, what, small))
            if tag == "gen":
                out.sample({"kind": case["kind"], "ops": case["ops"][:6], "mem": r.mem[:6], "sql": r.sql[:6]}, cap=4)

        # ---- correspondence with the model drivers (one batch)
        lines: list[str] = []
        spans = []
        for tag, case in cases:
            dl = driver_lines(S, case)
            spans.append((len(lines), len(case["ops"])))
            lines += dl
        model_out = Driver(MODEL).run(lines)
        for (tag, case), r, (start, n) in zip(cases, results, spans):
            if r.viol is not None and r.at >= 0:
                upto = r.at + 1  # the real run stopped there
            else:
                upto = n
            mm = model_out[start + 1: start + 1 + n]
            ms = model_out[start + 2 + n: start + 2 + 2 * n]
            msp = model_out[start + 3 + 2 * n: start + 3 + 3 * n]
            if model_out[start] != "ok":
                out.divergences.append(Divergence(MODEL, start, lines[start], model_out[start], "ok", {"case": case}))
                continue
            out.disagreements_checked += 2 * upto
            pairs = [("mem", mm, r.mem), ("sql", ms, r.sql)]
            if not has_raise(case):
                pairs += [("spec~mem", msp, r.mem), ("spec~sql", msp, r.sql)]
            done = False
            for name, mo, io in pairs:
                for j in range(min(upto, len(io))):
                    if j >= len(mo) or mo[j] != io[j]:
                        out.divergences.append(Divergence(
                            f"{MODEL}/{name}", j, S.op_line(case["ops"][j]), mo[j] if j < len(mo) else "<missing>", io[j],
                            {"case": {"kind": case["kind"], "ops": case["ops"][: j + 1]}, "source": tag}))
                        done = True
                        break
                if done:
                    break
        if len(model_out) != len(lines):
            out.divergences.append(Divergence(MODEL, len(model_out), "<end>", "<missing>", f"{len(lines)} lines expected", None))
        out.divergences = out.divergences[:5]
    finally:
        sqlenv.close()
    return out
