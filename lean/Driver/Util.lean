/-! Line-protocol helpers shared by all model drivers. -/
namespace Drv

def splitOn (s : String) (sep : String) : List String := s.splitOn sep

def parseNat? (s : String) : Option Nat := s.toNat?

/-- comma-separated naturals; "" ↦ [] -/
def parseNats? (s : String) : Option (List Nat) :=
  if s.isEmpty then some [] else (s.splitOn ",").mapM (·.toNat?)

/-- comma-separated code points → chars -/
def parseChars? (s : String) : Option (List Char) :=
  (parseNats? s).map (·.map Char.ofNat)

def showChars (cs : List Char) : String := ",".intercalate (cs.map (toString ·.toNat))

def parseBool? (s : String) : Option Bool :=
  if s == "1" then some true else if s == "0" then some false else none

partial def loop (h : IO.FS.Stream) (step : σ → String → σ × String) (st : σ) : IO Unit := do
  let line ← h.getLine
  if line.isEmpty then return ()
  let l := if line.back == '\n' then (line.dropEnd 1).toString else line
  let (st', out) := step st l
  IO.println out
  loop h step st'

end Drv
