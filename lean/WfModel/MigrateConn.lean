import WfModel.Migrate
/-!
M11, connection level — what is *durable*.

`Migrate.runMigrations` describes what the connection that runs the migrations sees.  A database
"at a schema version" is the file: what another connection (the next process start) reads after this
one is closed.  This file models one `sqlite3` connection in Python's default transaction mode
(`isolation_level=""`):

* DML through `execute` (`INSERT …`) opens an implicit transaction when none is open;
* `executescript` first commits whatever is pending, then runs its statements as written
  (`CREATE TABLE` outside a transaction autocommits; a script starting with `BEGIN;` opens one);
* `conn.commit()` / `COMMIT` make the connection's view durable, `ROLLBACK` discards it;
* `conn.close()` without commit — and a killed process — discard the pending transaction.

`runMigrationsT` replays `run_migrations` as the list of connection states after each *write call*
(`executescript`, `INSERT`, `commit()`, `COMMIT`, `ROLLBACK`; reads change nothing), so "killed before
write call n" is the `durable` component of the n-th state.  The callers of `run_migrations`:
`SqliteWorkflowStore` commits afterwards; `DBOSRuntime.run_migrations` (and the package's test
helpers) connect, run and close with no commit of their own — `session`.
-/
namespace Migrate

structure Conn where
  /-- committed: what a re-opened file shows -/
  durable : Db
  /-- what this connection sees, its own uncommitted writes included -/
  cur : Db
  inTxn : Bool
deriving DecidableEq, Repr, Inhabited

namespace Conn

/-- `sqlite3.connect(path)` -/
def connect (db : Db) : Conn := { durable := db, cur := db, inTxn := false }

/-- `conn.close()` with no commit, or the process dies: the pending transaction is rolled back -/
def close (c : Conn) : Db := c.durable

/-- `conn.commit()` / `cur.execute("COMMIT")` -/
def commit (c : Conn) : Conn := { durable := c.cur, cur := c.cur, inTxn := false }

/-- `cur.execute("ROLLBACK")` -/
def rollback (c : Conn) : Conn := { durable := c.durable, cur := c.durable, inTxn := false }

/-- a data-modifying statement through `execute`: implicit `BEGIN` when no transaction is open -/
def write (c : Conn) (f : Db → Db) : Conn := { durable := c.durable, cur := f c.cur, inTxn := true }

/-- `executescript` of DDL with no `BEGIN` of its own: pending work is committed first, the statement
autocommits -/
def scriptAuto (c : Conn) (f : Db → Db) : Conn := { durable := f c.cur, cur := f c.cur, inTxn := false }

end Conn

/-- last state of a trace that started in `c` -/
def lastOf (c : Conn) (tr : List Conn) : Conn := tr.getLast?.getD c

/-- `INSERT OR IGNORE INTO schema_migrations (package, version)` (primary key = both columns) -/
def insertIgnore (r : String × Nat) (rows : List (String × Nat)) : List (String × Nat) :=
  if rows.contains r then rows else rows ++ [r]

/-- the seed loop of the bootstrap: one `INSERT OR IGNORE` per version; states after each -/
def seedT (c : Conn) : List Nat → List Conn
  | [] => []
  | v :: vs =>
    let c' := c.write fun d => { d with rows := insertIgnore (bootstrapPkg, v) d.rows }
    c' :: seedT c' vs

/-- `_bootstrap_schema_migrations`: `executescript(CREATE TABLE …)`; when `user_version > 0` the seed
`INSERT`s and then `conn.commit()` -/
def bootstrapT (c : Conn) : List Conn :=
  if c.cur.hasSM then []
  else
    let c1 := c.scriptAuto fun d => { d with hasSM := true, rows := [] }
    if 0 < c.cur.userVersion then
      let tr := seedT c1 (List.range' 1 c.cur.userVersion.toNat)
      c1 :: (tr ++ [(lastOf c1 tr).commit])
    else [c1]

/-- the apply loop for one package: trace and the name of the file that raised, if any -/
def runFilesT (pkg : String) : List Migration → List Nat → Conn → List Conn × Option String
  | [], _, _ => ([], none)
  | m :: ms, applied, c =>
    if applied.contains m.version || m.version == 0 then runFilesT pkg ms applied c
    else
      let c0 := c.commit            -- `executescript` commits what is pending, then `BEGIN; …`
      match applyStmts c0.cur.schema m.stmts with
      | none =>
        -- a statement raised inside the open transaction; `ROLLBACK`; re-raise
        ([{ c0 with inTxn := true }, c0.rollback], some m.name)
      | some s =>
        let c1 : Conn := { c0 with cur := { c0.cur with schema := s }, inTxn := true }
        let c2 := c1.write fun d => { d with rows := d.rows ++ [(pkg, m.version)] }
        let c3 := c2.commit
        let r := runFilesT pkg ms (m.version :: applied) c3
        (c1 :: c2 :: c3 :: r.1, r.2)

def runSourcesT : List (String × List Migration) → Conn → List Conn × Option String
  | [], _ => ([], none)
  | (pkg, ms) :: rest, c =>
    let r := runFilesT pkg ms (appliedOf pkg c.cur.rows) c
    match r.2 with
    | some f => (r.1, some f)
    | none =>
      let r' := runSourcesT rest (lastOf c r.1)
      (r.1 ++ r'.1, r'.2)

/-- `run_migrations(conn, sources)` on loaded migration lists -/
def runLoadedT (srcs : List (String × List Migration)) (c : Conn) : List Conn × Option String :=
  let b := bootstrapT c
  let r := runSourcesT srcs (lastOf c b)
  (b ++ r.1, r.2)

def runMigrationsT (sources : List (String × List File)) (c : Conn) : List Conn × Option String :=
  runLoadedT (sources.map fun s => (s.1, loadMigrations s.2)) c

/-- one process start, the way `DBOSRuntime.run_migrations` does it: connect, `run_migrations`, close —
no commit by the caller.  Result as a re-opened file shows it, and whether a transaction was still
open when the connection was closed. -/
def sessionLoaded (srcs : List (String × List Migration)) (db : Db) : Result × Bool :=
  let c := Conn.connect db
  let r := runLoadedT srcs c
  let e := lastOf c r.1
  (match r.2 with
   | none => .ok e.close
   | some f => .failed f e.close, e.inTxn)

def session (sources : List (String × List File)) (db : Db) : Result × Bool :=
  sessionLoaded (sources.map fun s => (s.1, loadMigrations s.2)) db

def dedupAdj : List Db → List Db
  | [] => []
  | [d] => [d]
  | d :: e :: rest => if d = e then dedupAdj (e :: rest) else d :: dedupAdj (e :: rest)

/-- the successive distinct contents of the file while one run proceeds (start state first): the
states a process killed at any point can leave behind -/
def durables (sources : List (String × List File)) (db : Db) : List Db :=
  dedupAdj (db :: (runMigrationsT sources (Conn.connect db)).1.map (·.durable))

end Migrate
